"""pyvc.contract - sidecar contracts, the per-unit verification driver, solver dispatch,
counter-model extraction and replay on the real code."""
import ast
import importlib
import json
import os
import random
import subprocess
import sys
import tempfile
import time
import traceback
from fractions import Fraction

import z3

from . import engine as E
from .engine import (Engine, Frame, Sym, SymSeq, GenResult, LoopSpec, PyRaise, PathEnd, Unsupported, _Return,
                     INT, BOOL, REAL, STR, fresh, named, zterm, concretize, is_sym, exc_isa)
from .loader import Loader, REPO

CVC5 = '/usr/bin/cvc5'


# ----------------------------------------------------------------------------- parameter shapes

def make_param(eng, name, spec):
    """Symbolic (or concrete) entry value for a parameter from its shape spec."""
    if isinstance(spec, str):
        if spec in (INT, BOOL, REAL, STR):
            return named(spec, name)
        if spec == 'none':
            return None
        raise ValueError('unknown param spec %r' % spec)
    if isinstance(spec, tuple) and spec and spec[0] == 'tuple':
        return tuple(make_param(eng, '%s.%d' % (name, i), s) for i, s in enumerate(spec[1:]))
    if isinstance(spec, tuple) and spec and spec[0] == 'list':
        # ('list', elemspec, n): concrete spine of n symbolic elements
        return [make_param(eng, '%s[%d]' % (name, i), spec[1]) for i in range(spec[2])]
    if isinstance(spec, tuple) and spec and spec[0] == 'seq':
        # ('seq', (types...), arity): unbounded sequence
        s = SymSeq.fresh(spec[1], spec[2] if len(spec) > 2 else None, name)
        eng.assume(s.n >= 0)
        return s
    if isinstance(spec, tuple) and spec and spec[0] == 'const':
        return spec[1]
    if isinstance(spec, tuple) and spec and spec[0] == 'obj':
        # ('obj', class name, {attr: shape}[, 'rel/path.py'])  - record with symbolic fields; with a path the object is an
        # instance of that repo class (its real methods are used)
        info = eng.loader.classref(spec[3], spec[1]) if len(spec) > 3 and spec[3] else None
        attrs = {a: make_param(eng, '%s.%s' % (name, a), sh) for a, sh in spec[2].items()}
        return E.Obj(spec[1], attrs, info=info)
    if isinstance(spec, tuple) and spec and spec[0] == 'symlist':
        from .symlist import SymList
        return SymList.fresh(spec[1], spec[2] if len(spec) > 2 else None, name, eng=eng,
                             wrap=spec[3] if len(spec) > 3 else None, unwrap=spec[4] if len(spec) > 4 else None)
    if isinstance(spec, tuple) and spec and spec[0] == 'symdict':
        from .symdict import SymDict
        return SymDict(spec[1], spec[2], name=name)
    if callable(spec):
        return spec(eng, name)
    raise ValueError('unknown param spec %r' % (spec,))


def z3_unescape(t):
    """z3 prints non-printable characters as \\u{XX}: turn them back into characters"""
    import re
    return re.sub(r'\\u\{([0-9a-fA-F]+)\}', lambda m: chr(int(m.group(1), 16)), t)


def model_value(model, v, depth=0):
    """Concrete python value of a (possibly symbolic) value under a z3 model."""
    if isinstance(v, Sym):
        z = model.eval(v.z, model_completion=True)
        if v.t == INT:
            return z.as_long()
        if v.t == BOOL:
            return z3.is_true(z)
        if v.t == REAL:
            return Fraction(z.numerator_as_long(), z.denominator_as_long())
        if v.t == STR:
            return z3_unescape(z.as_string())
    if isinstance(v, tuple):
        return tuple(model_value(model, x) for x in v)
    if isinstance(v, list):
        return [model_value(model, x) for x in v]
    if isinstance(v, dict):
        return {(model_value(model, k) if isinstance(k, (Sym, tuple)) else k): model_value(model, x) for k, x in v.items()}
    if isinstance(v, (set, frozenset)):
        return sorted(model_value(model, x) for x in v)
    if isinstance(v, SymSeq):
        n = model.eval(v.n, model_completion=True).as_long()
        n = max(0, min(n, 64))
        return [model_value(model, v.get(i)) for i in range(n)]
    if isinstance(v, GenResult):
        return model_value(model, v.items)
    if type(v).__name__ == 'SymList':
        items = model_value(model, v.seq)
        if v.wrap is not None:
            items = [{'__obj__': 'elem', 'attrs': {'idx': x}} for x in items]
        return items
    if type(v).__name__ == 'SymDict':
        return '<symbolic dict>'
    if isinstance(v, E.Obj):
        d = {'__obj__': v.cls, 'attrs': {k: model_value(model, x) for k, x in v.attrs.items()
                                         if not k.startswith('_vc')}}
        if '_vc_tags' in v.attrs:
            d['attrs']['_vc_tags'] = {t: [model_value(model, p), model_value(model, val)]
                                      for t, (p, val) in v.attrs['_vc_tags'].items()}
        return d
    if v is None or isinstance(v, (bool, int, float, str, Fraction)):
        return v
    return '<%s>' % type(v).__name__


def snapshot_value(v, depth=0):
    """entry-state copy of a parameter value (containers mutated in place keep their entry contents here)."""
    if hasattr(v, 'vc_snapshot'):
        return v.vc_snapshot()
    if isinstance(v, E.Obj) and depth < 3:
        o = E.Obj(v.cls, {k: snapshot_value(x, depth + 1) for k, x in v.attrs.items()}, info=v.info)
        return o
    if isinstance(v, dict) and depth < 3:
        return {k: snapshot_value(x, depth + 1) for k, x in v.items()}
    if isinstance(v, list) and depth < 3:
        return [snapshot_value(x, depth + 1) for x in v]
    return v


def jsonable(v):
    if isinstance(v, Fraction):
        return float(v) if v.denominator != 1 else int(v)
    if isinstance(v, (tuple, list)):
        return [jsonable(x) for x in v]
    if isinstance(v, dict):
        return {str(k): jsonable(x) for k, x in v.items()}
    if isinstance(v, (int, float, str, bool)) or v is None:
        return v
    return repr(v)


# ----------------------------------------------------------------------------- solving

RECHECK = {'agree': 0, 'undecided': 0, 'disagree': 0}      # thorough tier: cvc5 re-discharge of what z3 proved


def solve(pc, goal, timeout_ms, want_model=True, light=False, recheck=False):
    """Check validity of pc => goal.  -> (verdict, model|None, backend, seconds)
    verdict: 'unsat' (discharged) | 'sat' (refuted) | 'unknown'."""
    t0 = time.time()
    ng = z3.Not(strip_foralls(goal))
    qf = [c for c in pc if not _has_quantifier(c)]
    if len(qf) < len(pc) and not _has_quantifier(ng):
        # a subset of the hypotheses that already proves the goal proves it: try the quantifier-free ones first (fast path)
        s0 = z3.Solver()
        s0.set('timeout', min(3000, timeout_ms))
        s0.add(*qf)
        s0.add(ng)
        if s0.check() == z3.unsat:
            if recheck:
                v2, _ = cvc5_check(s0, 10)
                RECHECK['agree' if v2 == 'unsat' else 'disagree' if v2 == 'sat' else 'undecided'] += 1
                if v2 == 'sat':
                    return 'disagree', None, 'z3 unsat / cvc5 sat', time.time() - t0
                return 'unsat', None, 'z3+cvc5' if v2 == 'unsat' else 'z3', time.time() - t0
            return 'unsat', None, 'z3', time.time() - t0
    s = z3.Solver()
    s.set('max_memory', 4096)      # MB: a query that needs more counts as undecided (one seeded change drove z3 to 65 GB)
    # string-heavy queries: z3's sequence solver is erratic (ms or timeout on the same query), cvc5 is steady: give z3 a
    # short first try, cvc5 the full budget, and z3 the full budget last
    stringy = (not light) and any('str.' in c.sexpr() for c in list(pc)[-12:] + [ng])
    s.set('timeout', min(4000, timeout_ms) if stringy else timeout_ms)
    for c in pc:
        s.add(c)
    s.add(ng)
    r = s.check()
    dt = time.time() - t0
    if r == z3.unsat:
        if recheck:
            v2, _ = cvc5_check(s, 10)
            RECHECK['agree' if v2 == 'unsat' else 'disagree' if v2 == 'sat' else 'undecided'] += 1
            if v2 == 'sat':
                return 'disagree', None, 'z3 unsat / cvc5 sat', time.time() - t0
            return 'unsat', None, 'z3+cvc5' if v2 == 'unsat' else 'z3', time.time() - t0
        return 'unsat', None, 'z3', dt
    if r == z3.sat:
        return 'sat', s.model(), 'z3', dt
    if light:
        return 'unknown', None, 'z3', dt
    # unknown -> cvc5 on the SMT-LIB dump
    v, dt2 = cvc5_check(s, max(5, timeout_ms // 1000))
    if stringy and v not in ('unsat', 'sat'):
        s.set('timeout', timeout_ms)
        r = s.check()
        if r == z3.unsat:
            return 'unsat', None, 'z3', time.time() - t0
        if r == z3.sat:
            return 'sat', s.model(), 'z3', time.time() - t0
    if v == 'unsat':
        return 'unsat', None, 'cvc5', dt + dt2
    if v == 'sat':
        # model stays with z3: retry z3 with a longer budget to obtain one
        s.set('timeout', timeout_ms * 3)
        if s.check() == z3.sat:
            return 'sat', s.model(), 'cvc5+z3', time.time() - t0
        return 'sat', None, 'cvc5', time.time() - t0
    # undecided with quantified hypotheses: bounded search for a *candidate* counter-model (finite instantiation of
    # the quantified hypotheses, sequence lengths <= 4).  A candidate is never trusted: it only counts when the
    # replay on the real code confirms it.
    m = candidate_search(pc, goal)
    if m is not None:
        return 'candidate', m, 'z3(bounded candidate search)', time.time() - t0
    return 'unknown', None, 'z3+cvc5', dt + dt2


def candidate_search(pc, goal, bound=3, timeout_ms=40000):
    s = z3.Solver()
    s.set('timeout', timeout_ms)
    consts = {}
    todo = list(pc) + [goal]
    seen = set()
    while todo:
        x = todo.pop()
        if x.get_id() in seen:
            continue
        seen.add(x.get_id())
        if z3.is_const(x) and x.decl().kind() == z3.Z3_OP_UNINTERPRETED and z3.is_int(x):
            consts[x.decl().name()] = x
        if z3.is_quantifier(x):
            todo.append(x.body())
        else:
            todo.extend(x.children())
    for name, cst in consts.items():
        if name.endswith('.len'):
            s.add(cst <= bound)

    import itertools as it
    dom = list(range(-1, bound + 2))

    def expand(f, depth=0):
        """replace every integer quantifier by its instances over the small domain (search only: unsound as a proof)"""
        if z3.is_quantifier(f):
            n = f.num_vars()
            if n > 2 or any(f.var_sort(i) != z3.IntSort() for i in range(n)) or depth > 2:
                return None
            insts = []
            for vals in it.product(dom, repeat=n):
                g = expand(z3.substitute_vars(f.body(), *[z3.IntVal(v) for v in reversed(vals)]), depth + 1)
                if g is None:
                    return None
                insts.append(g)
            return z3.And(*insts) if f.is_forall() else z3.Or(*insts)
        if z3.is_app(f) and f.num_args() > 0 and _has_quantifier(f):
            kids = [expand(c, depth) for c in f.children()]
            if any(k is None for k in kids):
                return None
            return f.decl()(*kids)
        return f
    for p in pc:
        g = expand(p)
        if g is not None:
            s.add(g)
    ng = expand(z3.Not(strip_foralls(goal)))
    if ng is None:
        return None
    s.add(ng)
    if s.check() == z3.sat:
        return s.model()
    return None


_skolem_ctr = [0]


def strip_foralls(goal):
    """A goal  forall x. P(x)  is proved by proving P(c) for fresh constants c (same for the consequent of an
    implication and the conjuncts of a conjunction): removes quantifier handling from the refutation query."""
    if z3.is_quantifier(goal) and goal.is_forall():
        consts = []
        for i in range(goal.num_vars()):
            _skolem_ctr[0] += 1
            consts.append(z3.Const('%s!sk%d' % (goal.var_name(i), _skolem_ctr[0]), goal.var_sort(i)))
        body = z3.substitute_vars(goal.body(), *reversed(consts))
        return strip_foralls(body)
    if z3.is_and(goal):
        return z3.And(*[strip_foralls(c) for c in goal.children()])
    if z3.is_implies(goal):
        a, b = goal.children()
        return z3.Implies(a, strip_foralls(b))
    return goal


def cvc5_check(solver, timeout_s):
    t0 = time.time()
    try:
        smt = solver.to_smt2()
        needs_strings = 'String' in smt or 'str.' in smt
        with tempfile.NamedTemporaryFile('w', suffix='.smt2', delete=False, dir=scratch_dir()) as f:
            f.write('(set-logic ALL)\n' + smt)
            path = f.name
        cmd = [CVC5, '--tlimit=%d' % (timeout_s * 1000)]
        if needs_strings:
            cmd.append('--strings-exp')
        cmd.append(path)
        out = subprocess.run(cmd, capture_output=True, text=True, timeout=timeout_s + 5).stdout.strip().split('\n')[0]
        os.unlink(path)
    except Exception:
        out = 'unknown'
    return (out if out in ('sat', 'unsat') else 'unknown'), time.time() - t0


def _has_quantifier(e):
    seen = set()
    todo = [e]
    while todo:
        x = todo.pop()
        if x.get_id() in seen:
            continue
        seen.add(x.get_id())
        if z3.is_quantifier(x):
            return True
        todo.extend(x.children())
    return False


def scratch_dir():
    d = os.path.join(os.path.dirname(os.path.dirname(os.path.abspath(__file__))), '.scratch')
    os.makedirs(d, exist_ok=True)
    return d


# ----------------------------------------------------------------------------- contract

class Contract:
    """Sidecar contract of one real function.

    target    'relative/path.py::qualname'
    params    {name: shape}  (see make_param)   - order = positional order of the real function
    cases     list of {name: shape} overrides; each case is verified separately (optional / None inputs)
    requires  [spec]         ensures {name: spec}   raises {ExcName: spec-condition under which it may escape}
    loops     {ordinal: LoopSpec}
    yields    (types, arity) of the generator output Y (SymSeq), when the target is a generator
    yield_checks {name: spec over locals + yv}     ghost updates are ordinary invariants over real locals
    result    shape of the result used when the contract is applied at a call site
    """

    def __init__(self, prop, target, params, requires=(), ensures=None, raises=None, loops=None, yields=None,
                 yield_checks=None, cases=None, result=None, callees=(), name=None, setup=None, replay=None,
                 replay_args=None, assumptions=(), self_obj=None, timeout_ms=None, crosscheck=None,
                 call_raises_exact=False, exit_checks=None, frame_locals=False, pre_state=None,
                 replay_ensures=None, bounded=None, tiers=None, max_paths=4000, block=None, harness=None, max_explore_s=None):
        self.prop = prop
        self.target = target
        self.relpath, self.qualname = target.split('::')
        self.params = params
        self.requires = list(requires)
        self.ensures = dict(ensures or {})
        self.raises = dict(raises or {})
        self.loops = dict(loops or {})
        self.yields = yields
        self.yield_checks = dict(yield_checks or {})
        self.cases = cases or [{}]
        self.result = result
        self.callees = list(callees)
        self.name = name or self.qualname
        self.setup = setup
        self.replay = replay
        self.replay_args = replay_args
        self.assumptions = list(assumptions)
        self.self_obj = self_obj
        self.timeout_ms = timeout_ms
        self.crosscheck = crosscheck
        self.exit_checks = exit_checks or {}
        self.pre_state = pre_state
        # clauses evaluated only natively during replay (computable restatements of per-iteration obligations)
        self.replay_ensures = dict(replay_ensures or {})
        self.tiers = tiers
        self.harness = harness  # python source (in /verif) driving real functions/classes of the target module
        self.native_env = None  # {name: python object}: native counterparts of the /verif helpers a harness uses (replay)
        self.block = block      # fn(FunctionDef) -> list of statements: verify a block inside a large function
        self.max_paths = max_paths
        self.max_explore_s = max_explore_s
        self.bounded = bounded     # text of the bound when this unit is a bounded stand-in (not counted as proved)

    @property
    def uid(self):
        return '%s/%s' % (self.prop, self.name)

    def dotted(self, loader):
        m = loader.module_by_relpath(self.relpath)
        return m.dotted + '.' + self.qualname

    # ---- use at a call site (modular verification: callers see only this contract)
    def apply_at_callsite(self, eng, f, args, kwargs, node):
        env = eng.bind_args(f.node, args, kwargs, f.bound, f.mod, f.closure)
        fr = Frame('<contract %s>' % self.name, f.mod, env)
        for i, r in enumerate(self.requires):
            g = eng.spec_eval(r, fr)
            eng.check('pre@callsite/%s/requires%d' % (self.name, i), g, kind='pre@callsite',
                      info={'line': getattr(node, 'lineno', None)})
        for exc, cond in self.raises.items():
            c = eng.ztruth(eng.spec_eval(cond, fr))
            may = fresh(BOOL, 'raises_' + exc)
            if eng.branch(z3.And(c, may.z)):
                raise PyRaise(exc, node=node)
        if self.yields is not None:
            types, arity = self.yields
            y = SymSeq.fresh(types, arity, 'Y_' + self.name)
            eng.assume(y.n >= 0)
            fr.env['Y'] = y
            fr.env['result'] = y
            res = GenResult(y)
        else:
            res = make_param(eng, 'ret_' + self.name, self.result) if self.result is not None else None
            fr.env['result'] = res
        for nm, text in self.ensures.items():
            eng.assume(eng.ztruth(eng.spec_eval(text, fr)))
        eng.used_contracts.add(self.uid)
        return res


class UnitResult(dict):
    pass


class Verifier:
    """Runs one contract: symbolic execution over all paths + discharge of all obligations."""

    def __init__(self, contract, tier='quick', seed=0, registry=None):
        self.c = contract
        self.tier = tier
        self.seed = seed
        self.timeout_ms = contract.timeout_ms or (20000 if tier == 'quick' else 120000)
        self.registry = registry or {}

    def new_engine(self):
        loader = Loader()
        from . import stubs
        eng = Engine(loader, stubs=stubs.STUBS)
        eng.module_value_cache = {}
        eng.used_contracts = set()
        for cc in self.c.callees:
            if isinstance(cc, str):
                cc = self.registry[cc]
            eng.callee_contracts[cc.dotted(loader)] = cc
        return eng

    def run(self, cases=None):
        c = self.c
        t0 = time.time()
        res = UnitResult(unit=c.uid, target=c.target, obligations=[], paths=0, errors=[], trusted=[], sources={},
                         assumptions=list(c.assumptions), contracts_used=[])
        try:
            for ci, case in enumerate(c.cases):
                if cases is None or ci in cases:
                    self.run_case(ci, case, res)
        except Unsupported as e:
            res['errors'].append('unsupported: %s' % e + ('\n' + traceback.format_exc() if os.environ.get('VERIF_DEBUG') else ''))
        except Exception as e:
            res['errors'].append('checker exception: %s\n%s' % (e, traceback.format_exc()))
        res['wall_s'] = round(time.time() - t0, 3)
        return res

    def run_case(self, ci, case, res):
        c = self.c
        eng = self.new_engine()
        loader = eng.loader
        if c.setup:
            c.setup(eng)
        if c.harness:
            mod_ = loader.module_by_relpath(c.relpath)
            for nm in c.qualname.split(','):
                if nm in mod_.classes:
                    loader.classref(c.relpath, nm)
                else:
                    loader.find(c.relpath, nm)
            hnode = ast.parse('def __harness__():\n' + '\n'.join('    ' + l for l in c.harness.strip('\n').split('\n')))
            fref = E.FuncRef(mod_, hnode.body[0], mod_.dotted + '.<harness %s>' % c.name)
        else:
            fref = loader.funcref(c.relpath, c.qualname)
        loader.register_exceptions(eng, c.relpath)
        loop_ids = {}
        for n in ast.walk(fref.node):
            if isinstance(n, (ast.For, ast.While)):
                loop_ids[id(n)] = None
        # ast.walk is breadth-first; order loops by source position instead
        body_stmts = c.block(fref.node) if c.block else fref.node.body
        if not body_stmts:
            raise Unsupported('block anchor not found in %s (contract needs re-anchoring)' % c.target)
        loops_sorted = sorted((n for st in body_stmts for n in ast.walk(st) if isinstance(n, (ast.For, ast.While))),
                              key=lambda n: (n.lineno, n.col_offset))
        loop_ids = {id(n): i for i, n in enumerate(loops_sorted)}
        # loops may be keyed by the source text their iterable / test starts with (robust against loops added elsewhere)
        loopspecs = {}
        for key, spec in c.loops.items():
            if isinstance(key, str):
                hits = [i for i, n in enumerate(loops_sorted)
                        if ast.unparse(n.iter if isinstance(n, ast.For) else n.test).startswith(key)]
                if len(hits) != 1:
                    raise Unsupported('loop anchor %r matches %d loops in %s (contract needs re-anchoring)' % (key, len(hits), c.target))
                key = hits[0]
            loopspecs[key] = spec
        groups = {}     # obligation name -> list of instances
        order = []
        schedule = []
        eng.alts = []
        npaths = 0
        incomplete = None
        path_unsupported = None
        t_explore = time.time()
        completed = 0
        requires_sat = False
        canary_refuted = False
        inputs_repr = None
        while True:
            eng.reset_path(schedule)
            if c.setup:
                c.setup(eng)          # stubs and ghost state are (re)initialised on every path
            eng.witness = {}
            eng.module_value_cache = {}
            E._fresh_counter = E.itertools.count()   # deterministic names per path
            params = {}
            params_entry = {}
            outcome = None
            try:
                shapes = dict(c.params)
                shapes.update(case)
                case_yields = shapes.pop('__yields__', c.yields)
                case_requires = shapes.pop('__requires__', [])
                case_yield_checks = shapes.pop('__yield_checks__', {})
                for name, spec in shapes.items():
                    params[name] = make_param(eng, name, spec)
                params_entry = {k: snapshot_value(v) for k, v in params.items()}
                a_ = fref.node.args
                fn_params = {x.arg for x in a_.posonlyargs + a_.args + a_.kwonlyargs}
                if c.harness:
                    env = dict(params)
                elif c.block:
                    env = {k: v for k, v in params.items() if k in fn_params}
                else:
                    env = eng.bind_args(fref.node, [], {k: v for k, v in params.items() if k in fn_params}, None,
                                        fref.mod, None)
                env.update({k: v for k, v in params.items() if k not in fn_params})
                for k, v in params.items():
                    env['old!' + k] = v
                fr = Frame(c.qualname, fref.mod, env)
                fr.is_top = True
                fr.loopspecs = loopspecs
                fr.loop_ids = loop_ids
                fr.cls = fref.cls
                if c.pre_state:
                    c.pre_state(eng, fr)
                for r in list(c.requires) + list(case_requires):
                    eng.assume(eng.ztruth(eng.spec_eval(r, fr)))
                if eng.solver.check() == z3.unsat:
                    raise PathEnd()
                requires_sat = True
                if loader.is_generator(fref.node):
                    if case_yields == 'checks-only':
                        fr.yields = E.DiscardYields()
                    elif case_yields is None:
                        fr.yields = []
                    else:
                        fr.yields = SymSeq.empty(case_yields[0], case_yields[1])
                ychecks = dict(c.yield_checks)
                ychecks.update(case_yield_checks)
                if ychecks:
                    def on_yield(eng_, val, fr_, _y=ychecks):
                        for nm, text in _y.items():
                            g = eng_.spec_eval(text, fr_, extra={'yv': val})
                            eng_.check('yield.' + nm, g, kind='yield')
                    eng.on_yield = on_yield
                else:
                    eng.on_yield = None
                eng.exit_checks = c.exit_checks
                try:
                    eng.depth = 0
                    eng.exec_block(body_stmts, fr)
                    outcome = ('return', None)
                except _Return as r:
                    outcome = ('return', r.value)
                except (E._Continue, E._Break):
                    if not c.block:
                        raise
                    outcome = ('return', None)      # a loop body verified as a block: continue/break end the iteration
                except PyRaise as e:
                    outcome = ('raise', e)
                completed += 1
                if outcome[0] == 'return':
                    result = outcome[1]
                    if fr.yields is not None:
                        result = fr.yields
                    # parameters in postconditions denote their values at entry (python may rebind them)
                    extra = dict(params)
                    extra['result'] = result
                    if fr.yields is not None and not isinstance(fr.yields, E.DiscardYields):
                        extra['Y'] = fr.yields
                    for nm, text in c.ensures.items():
                        g = eng.spec_eval(text, fr, extra=extra)
                        eng.check('post.' + nm, g, kind='post', info={'result': result})
                else:
                    e = outcome[1]
                    allowed = []
                    pfr = Frame(c.qualname, fref.mod, {k: v for k, v in env.items()})
                    for exc, cond in c.raises.items():
                        if exc_isa(e.etype, exc, eng.extra_exc):
                            allowed.append(eng.ztruth(eng.spec_eval(cond, pfr)))
                    g = z3.Or(*allowed) if allowed else z3.BoolVal(False)
                    try:
                        eng.check('raises.only', g, kind='raises',
                                  info={'exception': e.etype, 'line': getattr(e.node, 'lineno', None)})
                    except PathEnd:
                        pass
            except PathEnd:
                pass
            except Unsupported as ex_path:
                # this path runs into something the engine cannot follow: the exploration is incomplete (nothing is proved),
                # but what the other paths refute still stands
                if npaths == 0 and not eng.alts:
                    raise
                path_unsupported = path_unsupported or str(ex_path)
            npaths += 1
            for ob in eng.obligations:
                ob.info['params'] = params_entry
                ob.info['case'] = ci
                ob.info['witness'] = dict(eng.witness)
                ob.info['spec_env'] = {k: snapshot_value(v) for k, v in eng.spec_env.items()
                                        if isinstance(v, (Sym, SymSeq, int, str, bool, dict, list, tuple, set))}
                if ob.name not in groups:
                    groups[ob.name] = []
                    order.append(ob.name)
                groups[ob.name].append(ob)
            res['trusted'] = sorted(set(res['trusted']) | eng.trusted_used)
            res['contracts_used'] = sorted(set(res['contracts_used']) | eng.used_contracts)
            if npaths > c.max_paths:
                incomplete = 'path explosion (>%d paths) in %s' % (c.max_paths, c.uid)
                break
            budget = c.max_explore_s or (420 if self.tier == 'quick' else 1800)
            if time.time() - t_explore > budget:
                incomplete = 'exploration budget (%d s, %d paths so far) exhausted in %s' % (budget, npaths, c.uid)
                break
            if not eng.next_schedule():
                break
            schedule = eng.schedule
        res['paths'] += npaths
        res['sources'].update(loader.used_sources)
        # vacuity guards
        res['obligations'].append({'id': '%s/case%d/vac.requires_sat' % (c.uid, ci), 'kind': 'vacuity',
                                   'result': 'discharged' if (requires_sat and completed > 0) else 'failed',
                                   'backend': 'z3', 'solver_s': 0.0, 'instances': 1})
        # discharge
        for name in order:
            insts = groups[name]
            verdict = 'discharged'
            backend = set()
            secs = 0.0
            cex = None
            for ob in insts:
                if z3.is_true(z3.simplify(ob.goal)):
                    continue
                if os.environ.get('VERIF_TRACE'):
                    print('solve', name, len(ob.pc), flush=True)
                    if os.environ['VERIF_TRACE'] == name:
                        ss = z3.Solver()
                        ss.add(*ob.pc)
                        ss.add(z3.Not(strip_foralls(ob.goal)))
                        global _TR
                        _TR = globals().get('_TR', 0) + 1
                        open('/verif/.scratch/trace%d.smt2' % _TR, 'w').write(ss.to_smt2())
                # once a candidate counter-model exists for this clause the remaining path instances get a short budget
                v, model, be, dt = solve(ob.pc, ob.goal, self.timeout_ms if verdict != 'candidate' else 2000,
                                         light=(verdict == 'candidate'), recheck=(self.tier == 'thorough'))
                if v == 'disagree':
                    res['errors'].append('solver disagreement on %s (z3 unsat, cvc5 sat): not counted as discharged' % name)
                    v = 'unknown'
                if os.environ.get('VERIF_TRACE'):
                    print('   ->', v, be, round(dt, 2), flush=True)
                backend.add(be)
                secs += dt
                if v == 'sat':
                    verdict = 'refuted'
                    cex = self.counterexample(ob, model)
                    if any(_has_quantifier(p) for p in ob.pc):
                        # models of quantified formulas are often not concretisable: also look for a small witness
                        m2 = candidate_search(ob.pc, ob.goal)
                        if m2 is not None:
                            cex['alt'] = self.counterexample(ob, m2)
                    break
                if v == 'candidate':
                    verdict = 'candidate'
                    cex = self.counterexample(ob, model)
                if v == 'unknown' and verdict != 'candidate':
                    verdict = 'unknown'
            res['obligations'].append({'id': '%s/case%d/%s' % (c.uid, ci, name) if len(c.cases) > 1 else '%s/%s' % (c.uid, name),
                                       'kind': insts[0].kind, 'result': verdict, 'backend': '+'.join(sorted(backend)) or 'simplify',
                                       'solver_s': round(secs, 3), 'instances': len(insts), 'cex': cex,
                                       'clause': name})
        if path_unsupported and not incomplete:
            incomplete = path_unsupported
        if incomplete:
            # not every path was explored: a refutation found on an explored path stands (its counter-model is replayed like
            # any other), nothing else is decided
            mine = [o for o in res['obligations'] if o.get('clause') is not None and o['id'].startswith(c.uid + '/')]
            if not any(o['result'] in ('refuted', 'candidate') for o in mine):
                raise Unsupported(incomplete)
            for o in mine:
                if o['result'] == 'discharged':
                    o['result'] = 'unknown'
                    o['note'] = 'exploration incomplete: ' + incomplete
        # canary: a false postcondition must be refuted on a feasible completed path
        can = 'failed'
        if completed > 0:
            s = z3.Solver()
            s.set('timeout', 5000)
            first = None
            for name in order:
                for ob in groups[name]:
                    if ob.kind in ('post', 'raises', 'yield'):
                        first = ob
                        break
                if first:
                    break
            if first is not None:
                v, _, _, _ = solve(first.pc, z3.BoolVal(False), 5000)
                if v in ('unknown', 'candidate'):
                    # quantified hypotheses (callee contracts / invariants): decide the quantifier-free part
                    qf = [p for p in first.pc if not _has_quantifier(p)]
                    v, _, _, _ = solve(qf, z3.BoolVal(False), 20000)
                can = 'discharged' if v in ('sat', 'candidate') else 'failed'
            else:
                can = 'discharged' if requires_sat else 'failed'
        res['obligations'].append({'id': '%s/case%d/vac.canary' % (c.uid, ci), 'kind': 'vacuity', 'result': can,
                                   'backend': 'z3', 'solver_s': 0.0, 'instances': 1})

    def counterexample(self, ob, model):
        if model is None:
            return {'inputs': None, 'note': 'solver returned sat without a model'}
        params = ob.info.get('params', {})
        try:
            inputs = {k: model_value(model, v) for k, v in params.items()}
            wit = ob.info.get('witness') or {}
            if wit:
                inputs['witness'] = {k: model_value(model, v) for k, v in wit.items()}
            spec_vals = ob.info.get('spec_env') or {}
            if spec_vals:
                inputs['ghost'] = {k: model_value(model, v) for k, v in spec_vals.items()}
        except Exception as e:
            return {'inputs': None, 'note': 'model not concretisable: %s' % e}
        out = {'inputs': jsonable(inputs), 'info': {k: jsonable(v) if not isinstance(v, (Sym, SymSeq, tuple, list, dict, GenResult)) else None
                                                     for k, v in ob.info.items() if k not in ('params',)}}
        out['_raw_inputs'] = inputs
        return out


# ----------------------------------------------------------------------------- replay on the real code

def to_engine_value(v):
    """native python result -> value understood by the spec evaluator."""
    try:
        import numpy as np
        if isinstance(v, np.integer):
            return int(v)
        if isinstance(v, np.floating):
            return Fraction(float(v))
        if isinstance(v, np.bool_):
            return bool(v)
    except ImportError:
        pass
    if isinstance(v, float):
        return Fraction(v)
    if isinstance(v, tuple):
        return tuple(to_engine_value(x) for x in v)
    if isinstance(v, list):
        return [to_engine_value(x) for x in v]
    if isinstance(v, dict):
        return {k: to_engine_value(x) for k, x in v.items()}
    return v


def import_real(relpath, qualname):
    if REPO not in sys.path:
        sys.path.insert(0, REPO)
    dotted = relpath[:-3].replace('/', '.')
    mod = importlib.import_module(dotted)
    assert os.path.realpath(mod.__file__).startswith(os.path.realpath(REPO)), 'module not imported from %s' % REPO
    obj = mod
    for part in qualname.split('.'):
        obj = getattr(obj, part)
    return obj


def call_real(c, inputs):
    """Run the real function of contract c on concrete inputs. -> ('return', value) | ('raise', name, msg)"""
    import types
    names = list(c.params.keys())
    if c.harness:
        # the harness text drives the real module: compile it as a function inside the real module's namespace
        if REPO not in sys.path:
            sys.path.insert(0, REPO)
        mod = importlib.import_module(c.relpath[:-3].replace('/', '.'))
        src = 'def __harness__(%s):\n' % ', '.join(names) + '\n'.join('    ' + l for l in c.harness.strip('\n').split('\n'))
        g = dict(mod.__dict__)
        g.update(c.native_env or {})
        exec(compile(src, '<harness %s>' % c.name, 'exec'), g)
        try:
            r = g['__harness__'](*[native_arg(inputs[n]) for n in names])
            if isinstance(r, types.GeneratorType):
                r = list(r)
            return ('return', r)
        except NameError as e:
            raise RuntimeError('harness uses a /verif helper that has no native counterpart: %s' % e)
        except Exception as e:   # noqa
            return ('raise', type(e).__name__, str(e))
    fn = import_real(c.relpath, c.qualname)
    if c.replay_args is not None:
        args, kwargs = c.replay_args(inputs)
    else:
        args, kwargs = [native_arg(inputs[n]) for n in names], {}
    try:
        r = fn(*args, **kwargs)
        if isinstance(r, types.GeneratorType):
            r = list(r)
        return ('return', r)
    except Exception as e:   # noqa
        return ('raise', type(e).__name__, str(e))


def native_arg(v):
    if isinstance(v, dict) and '__obj__' in v:
        import types
        return types.SimpleNamespace(**{k: native_arg(x) for k, x in v['attrs'].items()})
    if isinstance(v, Fraction):
        return float(v) if v.denominator != 1 else int(v)
    if isinstance(v, list):
        return [native_arg(x) for x in v]
    if isinstance(v, tuple):
        return tuple(native_arg(x) for x in v)
    return v


def eval_clause_concrete(c, text, inputs, extra):
    """Evaluate a spec clause on concrete values -> True/False/None(undecided)."""
    loader = Loader()
    eng = Engine(loader)
    eng.module_value_cache = {}
    eng.used_contracts = set()
    m = loader.module_by_relpath(c.relpath)

    def conv(v):
        if isinstance(v, dict) and '__obj__' in v:
            return E.Obj(v['__obj__'], {k: conv(x) for k, x in v['attrs'].items()})
        if isinstance(v, list):
            return [conv(x) for x in v]
        if isinstance(v, tuple):
            return tuple(conv(x) for x in v)
        return v
    env = {k: conv(v) for k, v in inputs.items()}
    for k in list(env):
        env['old!' + k] = env[k]
    for k, v in (inputs.get('ghost') or {}).items():      # ghost names of the contract (spec_env), with their model values
        env.setdefault(k, conv(v))
    env.update(extra)
    fr = Frame('<replay>', m, env)
    try:
        g = eng.spec_eval(text, fr)
    except PyRaise as e:
        return False, 'spec evaluation raised %s' % e.etype
    except Unsupported as e:
        return None, 'spec not evaluable on concrete values: %s' % e
    g = concretize(g) if isinstance(g, Sym) else g
    if isinstance(g, Sym):
        s = z3.Solver()
        s.set('timeout', 20000)
        s.add(z3.Not(zterm(g, BOOL)))
        r = s.check()
        if r == z3.unsat:
            return True, None
        if r == z3.sat:
            return False, 'witness %s' % s.model()
        return None, 'closed formula undecided'
    t = eng.truth(g)
    return (bool(t) if isinstance(t, bool) else None), None


def replay_counterexample(c, ob_rec, _alt=False):
    """Replay a refuted obligation's counter-model against the real code.
    -> dict(status='confirmed'|'not-reproduced'|'no-input', ...)"""
    cex = ob_rec.get('cex') or {}
    if cex.get('alt') and not _alt:
        first = replay_counterexample(c, ob_rec, _alt=True)
        if first.get('status') == 'confirmed':
            return first
        second = replay_counterexample(c, {'cex': cex['alt'], 'clause': ob_rec.get('clause', '')}, _alt=True)
        if second.get('status') == 'confirmed':
            second['note'] = 'small witness from the bounded candidate search (the solver model itself did not replay)'
            return second
        return first
    inputs = cex.get('_raw_inputs')
    if inputs is None:
        return {'status': 'no-input', 'note': cex.get('note', 'no model')}
    if c.replay is not None:
        try:
            r = c.replay(inputs, ob_rec.get('clause', ''))
            r.setdefault('inputs', jsonable(inputs))
            return r
        except Exception as e:
            return {'status': 'no-input', 'note': 'custom replay failed: %s' % e, 'trace': traceback.format_exc(),
                    'inputs': jsonable(inputs)}
    if c.block is not None:
        return {'status': 'no-input', 'inputs': jsonable(inputs),
                'note': 'block contract without its own replay: counter-model reported without a real run'}
    if c.setup is not None and not c.harness:
        return {'status': 'no-input', 'inputs': jsonable(inputs),
                'note': 'contract stubs externals and defines no replay harness: counter-model reported without a real run'}
    try:
        out = call_real(c, inputs)
    except Exception as e:
        return {'status': 'no-input', 'note': 'could not build real inputs: %s' % e, 'trace': traceback.format_exc()}
    if out[0] == 'raise' and 'SimpleNamespace' in str(out[2]):
        # the generic replay stands in plain attribute records for objects; code that calls a method on one fails on the
        # stand-in, not on the real code: that is no replay at all
        return {'status': 'no-input', 'inputs': jsonable(inputs),
                'note': 'generic replay cannot build this object (%s): counter-model reported without a real run' % out[2]}
    observed = {'outcome': out[0], 'value': jsonable(to_engine_value(out[1])) if out[0] == 'return' else out[1:]}
    clause = ob_rec.get('clause', '')
    failed = []
    undecided = []
    if out[0] == 'raise':
        allowed = False
        for exc, cond in c.raises.items():
            if exc_isa(out[1], exc):
                ok, why = eval_clause_concrete(c, cond, inputs, {})
                if ok:
                    allowed = True
        if not allowed:
            failed.append({'clause': 'raises.only', 'exception': out[1], 'message': out[2]})
    else:
        result = to_engine_value(out[1])
        extra = {'result': result}
        if c.yields is not None or isinstance(out[1], list):
            extra['Y'] = result
        todo = list(c.ensures.items()) + list(c.replay_ensures.items())
        if clause.startswith('post.'):
            nm = clause[5:]
            todo.sort(key=lambda kv: kv[0] != nm)
        for nm, text in todo:
            ok, why = eval_clause_concrete(c, text, inputs, extra)
            if ok is False:
                failed.append({'clause': 'post.' + nm, 'spec': text, 'why': why})
            elif ok is None:
                undecided.append({'clause': 'post.' + nm, 'why': why})
    if failed:
        return {'status': 'confirmed', 'observed': observed, 'failed': failed, 'inputs': jsonable(inputs)}
    if undecided:
        return {'status': 'replay-undecided', 'observed': observed, 'undecided': undecided, 'inputs': jsonable(inputs)}
    return {'status': 'not-reproduced', 'observed': observed, 'inputs': jsonable(inputs)}
